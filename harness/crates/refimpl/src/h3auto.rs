//! Two small automata from RFC 9114: request-stream frame sequences (section 4.1) and
//! control / unidirectional stream rules (sections 6.2, 7.2.4).

use crate::frames::{self as rf, Frame, Tail};

pub const H3_NO_ERROR: u64 = 0x100;
pub const H3_GENERAL_PROTOCOL_ERROR: u64 = 0x101;
pub const H3_INTERNAL_ERROR: u64 = 0x102;
pub const H3_STREAM_CREATION_ERROR: u64 = 0x103;
pub const H3_CLOSED_CRITICAL_STREAM: u64 = 0x104;
pub const H3_FRAME_UNEXPECTED: u64 = 0x105;
pub const H3_FRAME_ERROR: u64 = 0x106;
pub const H3_EXCESSIVE_LOAD: u64 = 0x107;
pub const H3_ID_ERROR: u64 = 0x108;
pub const H3_SETTINGS_ERROR: u64 = 0x109;
pub const H3_MISSING_SETTINGS: u64 = 0x10a;
pub const H3_REQUEST_REJECTED: u64 = 0x10b;
pub const H3_REQUEST_CANCELLED: u64 = 0x10c;
pub const H3_REQUEST_INCOMPLETE: u64 = 0x10d;
pub const H3_MESSAGE_ERROR: u64 = 0x10e;
pub const H3_CONNECT_ERROR: u64 = 0x10f;
pub const H3_VERSION_FALLBACK: u64 = 0x110;
pub const QPACK_DECOMPRESSION_FAILED: u64 = 0x200;
pub const H3_DATAGRAM_ERROR: u64 = 0x33;

#[derive(Debug, Clone, Copy, PartialEq, Eq)]
pub enum Role {
    /// a server reading a request stream
    ServerRecv,
    /// a client reading the response on a request stream
    ClientRecv,
}

#[derive(Debug, Clone, Copy, PartialEq, Eq)]
pub enum Ending {
    Fin,
    Open,
}

/// How far the message gets and how it stops.
#[derive(Debug, Clone, PartialEq, Eq)]
pub enum Stop {
    /// the message is complete and legal (end of stream reached cleanly)
    Complete,
    /// connection error with this code
    ConnError(u64),
    /// server only: the stream finished before any HEADERS - stream error, no connection error
    RequestIncomplete,
    /// the stream is still open and more bytes are needed
    NeedMore,
    /// client reading a response stream that ended before HEADERS: RFC 9114 fixes no code here
    Unspecified,
}

#[derive(Debug, Clone, Copy, PartialEq, Eq)]
pub enum Phase {
    /// waiting for the first HEADERS
    Head,
    /// reading the body (after HEADERS)
    Body,
    /// after the trailing HEADERS
    Trailers,
}

#[derive(Debug, Clone, PartialEq, Eq)]
pub struct RequestVerdict {
    /// payload of the first HEADERS frame, if the message head was received
    pub head: Option<Vec<u8>>,
    /// every DATA payload byte, in order, up to the stop
    pub body: Vec<u8>,
    /// the body really ended (second HEADERS or clean end of stream)
    pub body_ended: bool,
    /// payload of the trailing HEADERS frame
    pub trailers: Option<Vec<u8>>,
    pub stop: Stop,
    /// the phase in which the stop happens
    pub phase: Phase,
    /// type of the offending frame for ConnError
    pub culprit: Option<u64>,
}

/// Frames that are never allowed on a request stream (RFC 9114 sections 7.2.3-7.2.8).
fn forbidden_on_request_stream(ty: u64, role: Role) -> Option<bool> {
    // Some(true): forbidden; Some(false): allowed; None: not asserted
    match ty {
        rf::CANCEL_PUSH | rf::SETTINGS | rf::GOAWAY | rf::MAX_PUSH_ID => Some(true),
        t if rf::is_h2_reserved(t) => Some(true),
        rf::PUSH_PROMISE => match role {
            Role::ServerRecv => Some(true),
            Role::ClientRecv => None,
        },
        _ => Some(false),
    }
}

/// Judge the bytes of one request stream. `None` is returned when the sequence contains a
/// PUSH_PROMISE sent to a client (no required outcome is asserted for it).
pub fn request_stream(bytes: &[u8], ending: Ending, role: Role) -> Option<RequestVerdict> {
    let (frames, tail) = rf::segment(bytes);
    let mut v = RequestVerdict {
        head: None,
        body: Vec::new(),
        body_ended: false,
        trailers: None,
        stop: Stop::Complete,
        phase: Phase::Head,
        culprit: None,
    };
    for f in &frames {
        let Frame { ty, payload, .. } = f;
        if !rf::is_known(*ty) && !rf::is_h2_reserved(*ty) {
            continue; // unknown types are permitted anywhere
        }
        match forbidden_on_request_stream(*ty, role) {
            None => return None,
            Some(true) => {
                // a malformed payload of a forbidden frame may equally be reported as H3_FRAME_ERROR;
                // callers that care use `request_stream_codes`
                v.stop = Stop::ConnError(H3_FRAME_UNEXPECTED);
                v.culprit = Some(*ty);
                return Some(v);
            }
            Some(false) => {}
        }
        match (v.phase, *ty) {
            (Phase::Head, rf::HEADERS) => {
                v.head = Some(payload.clone());
                v.phase = Phase::Body;
            }
            (Phase::Head, _) => {
                v.stop = Stop::ConnError(H3_FRAME_UNEXPECTED);
                v.culprit = Some(*ty);
                return Some(v);
            }
            (Phase::Body, rf::DATA) => v.body.extend_from_slice(payload),
            (Phase::Body, rf::HEADERS) => {
                v.trailers = Some(payload.clone());
                v.body_ended = true;
                v.phase = Phase::Trailers;
            }
            (Phase::Trailers, _) => {
                v.stop = Stop::ConnError(H3_FRAME_UNEXPECTED);
                v.culprit = Some(*ty);
                return Some(v);
            }
            (Phase::Body, _) => unreachable!(),
        }
    }
    match (tail, ending) {
        (Tail::Clean, Ending::Fin) => match v.phase {
            Phase::Head => {
                v.stop = match role {
                    Role::ServerRecv => Stop::RequestIncomplete,
                    Role::ClientRecv => Stop::Unspecified,
                }
            }
            Phase::Body => {
                v.body_ended = true;
                v.stop = Stop::Complete;
            }
            Phase::Trailers => v.stop = Stop::Complete,
        },
        (Tail::Clean, Ending::Open) => v.stop = Stop::NeedMore,
        (Tail::Partial { ty, len, have, .. }, Ending::Open) => {
            if v.phase == Phase::Body && ty == Some(rf::DATA) && len.is_some() {
                v.body.extend_from_slice(&bytes[bytes.len() - have..]);
            }
            v.stop = Stop::NeedMore;
            v.culprit = ty;
        }
        (Tail::Partial { ty, len, have, .. }, Ending::Fin) => {
            if v.phase == Phase::Body && ty == Some(rf::DATA) && len.is_some() {
                v.body.extend_from_slice(&bytes[bytes.len() - have..]);
            }
            v.stop = Stop::ConnError(H3_FRAME_ERROR);
            v.culprit = ty;
        }
    }
    Some(v)
}

// ------------------------------------------------------------------------------------------
// control stream / unidirectional streams

pub const STREAM_CONTROL: u64 = 0x00;
pub const STREAM_PUSH: u64 = 0x01;
pub const STREAM_QPACK_ENCODER: u64 = 0x02;
pub const STREAM_QPACK_DECODER: u64 = 0x03;
pub const STREAM_WEBTRANSPORT_UNI: u64 = 0x54;

#[derive(Debug, Clone, Copy, PartialEq, Eq)]
pub enum Endpoint {
    Client,
    Server,
}

#[derive(Debug, Clone, PartialEq, Eq)]
pub enum CtrlEvent {
    Settings(Vec<u8>),
    Goaway(u64),
    CancelPush(u64),
    MaxPushId(u64),
}

#[derive(Debug, Clone, PartialEq, Eq)]
pub struct ControlVerdict {
    /// frames the receiver has to act on, in order, before the stop
    pub acted: Vec<CtrlEvent>,
    /// None: no connection error required (yet)
    pub error: Option<u64>,
    /// alternative codes that are equally defensible (e.g. a malformed payload of a frame that is
    /// also not allowed here)
    pub also_ok: Vec<u64>,
    /// no assertion is made (a frame whose treatment the property leaves open was met)
    pub unspecified: bool,
}

#[derive(Debug, Clone, Copy, PartialEq, Eq)]
pub enum CtrlEnding {
    Open,
    Fin,
    Reset,
}

/// Judge the frames received on the peer's control stream (after the stream type), by `me`.
pub fn control_stream(bytes: &[u8], ending: CtrlEnding, me: Endpoint) -> ControlVerdict {
    let (frames, tail) = rf::segment(bytes);
    let mut v = ControlVerdict {
        acted: Vec::new(),
        error: None,
        also_ok: Vec::new(),
        unspecified: false,
    };
    let mut got_settings = false;
    for f in &frames {
        let ty = f.ty;
        let known = rf::is_known(ty) || rf::is_h2_reserved(ty);
        if !known {
            // RFC 9114 7.2.8 / 9: unknown frame types are ignored, also before SETTINGS?  The first
            // frame MUST be SETTINGS (6.2.1); a reserved frame first is "any other frame type".
            if !got_settings {
                v.error = Some(H3_MISSING_SETTINGS);
                v.unspecified = true; // grease-before-SETTINGS: implementations differ; not asserted
                return v;
            }
            continue;
        }
        if !got_settings {
            if ty == rf::SETTINGS {
                if rf::payload_fault(ty, &f.payload).is_some() {
                    v.error = Some(H3_FRAME_ERROR);
                    v.also_ok = vec![H3_SETTINGS_ERROR];
                    return v;
                }
                got_settings = true;
                v.acted.push(CtrlEvent::Settings(f.payload.clone()));
                continue;
            }
            v.error = Some(H3_MISSING_SETTINGS);
            if rf::is_h2_reserved(ty) {
                v.also_ok.push(H3_FRAME_UNEXPECTED);
            }
            if rf::payload_fault(ty, &f.payload).is_some() {
                v.also_ok.push(H3_FRAME_ERROR);
            }
            return v;
        }
        // after SETTINGS
        let fault = rf::payload_fault(ty, &f.payload).is_some();
        match ty {
            rf::SETTINGS => {
                v.error = Some(H3_FRAME_UNEXPECTED);
                if fault {
                    v.also_ok = vec![H3_FRAME_ERROR, H3_SETTINGS_ERROR];
                }
                return v;
            }
            rf::DATA | rf::HEADERS | rf::PUSH_PROMISE => {
                v.error = Some(H3_FRAME_UNEXPECTED);
                if fault {
                    v.also_ok = vec![H3_FRAME_ERROR];
                }
                return v;
            }
            t if rf::is_h2_reserved(t) => {
                v.error = Some(H3_FRAME_UNEXPECTED);
                return v;
            }
            rf::GOAWAY | rf::CANCEL_PUSH | rf::MAX_PUSH_ID => {
                if fault {
                    v.error = Some(H3_FRAME_ERROR);
                    if ty == rf::MAX_PUSH_ID && me == Endpoint::Client {
                        v.also_ok = vec![H3_FRAME_UNEXPECTED];
                    }
                    return v;
                }
                let val = rf::single_varint(&f.payload).unwrap();
                match ty {
                    rf::GOAWAY => v.acted.push(CtrlEvent::Goaway(val)),
                    rf::MAX_PUSH_ID => {
                        if me == Endpoint::Client {
                            v.error = Some(H3_FRAME_UNEXPECTED);
                            return v;
                        }
                        v.acted.push(CtrlEvent::MaxPushId(val));
                    }
                    _ => {
                        // CANCEL_PUSH: its treatment depends on push state the property does not
                        // describe (H3_ID_ERROR for unknown push ids is permitted): not asserted
                        v.unspecified = true;
                        v.acted.push(CtrlEvent::CancelPush(val));
                    }
                }
            }
            _ => unreachable!(),
        }
    }
    match (tail, ending) {
        (_, CtrlEnding::Reset) => {
            if v.error.is_none() {
                v.error = Some(H3_CLOSED_CRITICAL_STREAM);
            }
        }
        (Tail::Clean, CtrlEnding::Fin) => v.error = Some(H3_CLOSED_CRITICAL_STREAM),
        (Tail::Partial { .. }, CtrlEnding::Fin) => {
            v.error = Some(H3_FRAME_ERROR);
            v.also_ok = vec![H3_CLOSED_CRITICAL_STREAM];
        }
        (_, CtrlEnding::Open) => {}
    }
    v
}

#[cfg(test)]
mod tests {
    use super::*;
    use crate::frames::frame;
    #[test]
    fn request_sequences() {
        let h = frame(rf::HEADERS, &[0, 0, 0xd1]);
        let d0 = frame(rf::DATA, &[]);
        let d3 = frame(rf::DATA, b"abc");
        let unk = frame(0x21, &[1, 2]);
        let mut s = Vec::new();
        for p in [&h, &unk, &d0, &d3, &unk, &h, &unk] {
            s.extend_from_slice(p);
        }
        let v = request_stream(&s, Ending::Fin, Role::ServerRecv).unwrap();
        assert_eq!(v.stop, Stop::Complete);
        assert_eq!(v.body, b"abc");
        assert!(v.body_ended && v.trailers.is_some());
        let v = request_stream(&d3, Ending::Fin, Role::ServerRecv).unwrap();
        assert_eq!(v.stop, Stop::ConnError(H3_FRAME_UNEXPECTED));
        let v = request_stream(&unk, Ending::Fin, Role::ServerRecv).unwrap();
        assert_eq!(v.stop, Stop::RequestIncomplete);
        let mut s = h.clone();
        s.extend(frame(rf::SETTINGS, &[]));
        let v = request_stream(&s, Ending::Open, Role::ClientRecv).unwrap();
        assert_eq!((v.stop, v.phase), (Stop::ConnError(H3_FRAME_UNEXPECTED), Phase::Body));
        let mut s = h.clone();
        s.extend(&h);
        s.extend(&d0);
        let v = request_stream(&s, Ending::Open, Role::ServerRecv).unwrap();
        assert_eq!((v.stop, v.phase), (Stop::ConnError(H3_FRAME_UNEXPECTED), Phase::Trailers));
    }
    #[test]
    fn control_sequences() {
        let st = frame(rf::SETTINGS, &[6, 16]);
        let go = frame(rf::GOAWAY, &[4]);
        let mut s = st.clone();
        s.extend(&go);
        let v = control_stream(&s, CtrlEnding::Open, Endpoint::Client);
        assert_eq!(v.error, None);
        assert_eq!(v.acted.len(), 2);
        let v = control_stream(&go, CtrlEnding::Open, Endpoint::Client);
        assert_eq!(v.error, Some(H3_MISSING_SETTINGS));
        let mut s2 = s.clone();
        s2.extend(&st);
        assert_eq!(control_stream(&s2, CtrlEnding::Open, Endpoint::Server).error, Some(H3_FRAME_UNEXPECTED));
        assert_eq!(control_stream(&s, CtrlEnding::Fin, Endpoint::Server).error, Some(H3_CLOSED_CRITICAL_STREAM));
    }
}
