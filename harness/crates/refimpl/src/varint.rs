//! RFC 9000 section 16: variable-length integers, on plain byte slices.

pub const MAX: u64 = (1u64 << 62) - 1;

#[derive(Debug, Clone, Copy, PartialEq, Eq)]
pub enum Decoded {
    /// value, number of bytes consumed
    Ok(u64, usize),
    /// the slice ends before the encoding does
    Truncated,
}

/// Length in bytes announced by the two most significant bits of the first byte.
pub fn announced_len(first: u8) -> usize {
    match first >> 6 {
        0 => 1,
        1 => 2,
        2 => 4,
        _ => 8,
    }
}

pub fn decode(b: &[u8]) -> Decoded {
    if b.is_empty() {
        return Decoded::Truncated;
    }
    let n = announced_len(b[0]);
    if b.len() < n {
        return Decoded::Truncated;
    }
    let mut v: u64 = (b[0] & 0x3f) as u64;
    for x in &b[1..n] {
        v = (v << 8) | *x as u64;
    }
    Decoded::Ok(v, n)
}

/// Shortest form that can hold `v` (RFC 9000 Table 4). None if v >= 2^62.
pub fn shortest_len(v: u64) -> Option<usize> {
    if v <= 63 {
        Some(1)
    } else if v <= 16383 {
        Some(2)
    } else if v <= 1073741823 {
        Some(4)
    } else if v <= MAX {
        Some(8)
    } else {
        None
    }
}

/// Encode in a chosen length form (1, 2, 4 or 8). None if `v` does not fit that form.
pub fn encode_len(v: u64, n: usize) -> Option<Vec<u8>> {
    let (tag, bits) = match n {
        1 => (0u8, 6),
        2 => (1, 14),
        4 => (2, 30),
        8 => (3, 62),
        _ => return None,
    };
    if bits < 64 && v >> bits != 0 {
        return None;
    }
    let mut out = vec![0u8; n];
    for i in 0..n {
        out[n - 1 - i] = (v >> (8 * i)) as u8;
    }
    out[0] |= tag << 6;
    Some(out)
}

/// Encode in the shortest form.
pub fn encode(v: u64) -> Option<Vec<u8>> {
    encode_len(v, shortest_len(v)?)
}

/// All length forms (shortest first) that can hold `v`.
pub fn all_forms(v: u64) -> Vec<Vec<u8>> {
    [1usize, 2, 4, 8]
        .iter()
        .filter_map(|&n| encode_len(v, n))
        .collect()
}

#[cfg(test)]
mod tests {
    use super::*;
    #[test]
    fn rfc9000_a1_examples() {
        // RFC 9000 Appendix A.1 sample decodings
        assert_eq!(
            decode(&[0xc2, 0x19, 0x7c, 0x5e, 0xff, 0x14, 0xe8, 0x8c]),
            Decoded::Ok(151_288_809_941_952_652, 8)
        );
        assert_eq!(decode(&[0x9d, 0x7f, 0x3e, 0x7d]), Decoded::Ok(494_878_333, 4));
        assert_eq!(decode(&[0x7b, 0xbd]), Decoded::Ok(15_293, 2));
        assert_eq!(decode(&[0x25]), Decoded::Ok(37, 1));
        assert_eq!(decode(&[0x40, 0x25]), Decoded::Ok(37, 2));
        assert_eq!(encode(37).unwrap(), vec![0x25]);
        assert_eq!(encode(15_293).unwrap(), vec![0x7b, 0xbd]);
        assert_eq!(encode(494_878_333).unwrap(), vec![0x9d, 0x7f, 0x3e, 0x7d]);
        assert_eq!(encode(1 << 62), None);
    }
}
