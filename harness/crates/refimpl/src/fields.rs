//! Message well-formedness exactly as property C12 words it (RFC 9114 sections 4.1.2, 4.2,
//! 4.3), and the field-section size rule of section 4.2.2.
//!
//! The predicate is three-valued: `Malformed` (the property demands refusal), `WellFormed`
//! (the property permits delivery), `Unspecified` (the property's list does not decide: e.g.
//! a pseudo-header field after a regular field, a repeated pseudo-header field, `:status` in a
//! request, pseudo-header fields in trailers, an unknown `:protocol` token).

pub type Field = (Vec<u8>, Vec<u8>);

#[derive(Debug, Clone, Copy, PartialEq, Eq, PartialOrd, Ord)]
pub enum Class {
    WellFormed,
    Unspecified,
    Malformed,
}

#[derive(Debug, Clone, PartialEq, Eq)]
pub struct Verdict {
    pub class: Class,
    /// first reason for the class (for messages and signatures)
    pub why: &'static str,
}

fn worst(v: &mut Verdict, class: Class, why: &'static str) {
    if class > v.class {
        v.class = class;
        v.why = why;
    }
}

pub fn is_tchar(b: u8) -> bool {
    b.is_ascii_alphanumeric() || b"!#$%&'*+-.^_`|~".contains(&b)
}

/// RFC 9110 5.1 token, all lowercase (RFC 9114 4.2)
pub fn is_lowercase_token(name: &[u8]) -> bool {
    !name.is_empty() && name.iter().all(|&b| is_tchar(b) && !b.is_ascii_uppercase())
}

fn is_token(v: &[u8]) -> bool {
    !v.is_empty() && v.iter().all(|&b| is_tchar(b))
}

fn is_scheme(v: &[u8]) -> bool {
    // RFC 3986: ALPHA *( ALPHA / DIGIT / "+" / "-" / "." )
    !v.is_empty() && v[0].is_ascii_alphabetic() && v.iter().all(|&b| b.is_ascii_alphanumeric() || b"+-.".contains(&b))
}

fn is_authority(v: &[u8]) -> bool {
    // deliberately permissive: non-empty, visible ASCII without the delimiters that end an authority
    !v.is_empty() && v.iter().all(|&b| b > 0x20 && b < 0x7f && !b"/?#\\\"<>^`{|}".contains(&b))
}

fn is_path(v: &[u8]) -> bool {
    v.iter().all(|&b| b > 0x20 && b < 0x7f && !b"\"<>\\^`{|}#".contains(&b))
}

fn is_status(v: &[u8]) -> bool {
    v.len() == 3 && v.iter().all(|b| b.is_ascii_digit()) && v[0] >= b'1'
}

fn check_value(v: &mut Verdict, value: &[u8]) {
    for &b in value {
        if b == b'\r' || b == b'\n' || b == 0 {
            worst(v, Class::Malformed, "value-contains-cr-lf-nul");
        } else if (b < 0x20 && b != b'\t') || b == 0x7f {
            worst(v, Class::Unspecified, "value-contains-other-control");
        }
    }
}

#[derive(Debug, Clone, Copy, PartialEq, Eq)]
pub enum Kind {
    Request,
    Response,
    Trailers,
}

pub fn judge(fields: &[Field], kind: Kind) -> Verdict {
    let mut v = Verdict { class: Class::WellFormed, why: "well-formed" };
    let mut seen_regular = false;
    let mut pseudo_seen: Vec<&[u8]> = Vec::new();
    let mut method = None;
    let mut authority: Option<&[u8]> = None;
    let mut host: Option<&[u8]> = None;
    let mut status = None;
    for (name, value) in fields {
        if name.is_empty() {
            worst(&mut v, Class::Malformed, "empty-name");
            continue;
        }
        if name[0] == b':' {
            if seen_regular {
                worst(&mut v, Class::Unspecified, "pseudo-after-regular");
            }
            if pseudo_seen.contains(&&name[..]) {
                worst(&mut v, Class::Unspecified, "pseudo-repeated");
            }
            pseudo_seen.push(name);
            if kind == Kind::Trailers {
                worst(&mut v, Class::Unspecified, "pseudo-in-trailers");
            }
            match &name[..] {
                b":method" => {
                    if !is_token(value) {
                        worst(&mut v, Class::Malformed, "method-unparseable");
                    }
                    method = Some(value);
                    if kind == Kind::Response {
                        worst(&mut v, Class::Unspecified, "request-pseudo-in-response");
                    }
                }
                b":scheme" => {
                    if !is_scheme(value) {
                        worst(&mut v, Class::Malformed, "scheme-unparseable");
                    }
                    if kind == Kind::Response {
                        worst(&mut v, Class::Unspecified, "request-pseudo-in-response");
                    }
                }
                b":authority" => {
                    if value.is_empty() {
                        worst(&mut v, Class::Malformed, "authority-empty");
                    } else if !is_authority(value) {
                        worst(&mut v, Class::Malformed, "authority-unparseable");
                    }
                    authority = Some(value);
                    if kind == Kind::Response {
                        worst(&mut v, Class::Unspecified, "request-pseudo-in-response");
                    }
                }
                b":path" => {
                    if value.is_empty() {
                        worst(&mut v, Class::Unspecified, "path-empty");
                    } else if value.iter().all(|&b| b >= 0x80 || is_path(&[b])) && value.iter().any(|&b| b >= 0x80) {
                        // RFC 3986 has no bytes above 0x7f in a path; well-formed UTF-8 is widely let through
                        // (http::uri::PathAndQuery is a str), so that is left open. Bytes that are not even UTF-8
                        // cannot be the value of a PathAndQuery at all.
                        if std::str::from_utf8(value).is_ok() {
                            worst(&mut v, Class::Unspecified, "path-non-ascii-utf8");
                        } else {
                            worst(&mut v, Class::Malformed, "path-ill-formed-utf8");
                        }
                    } else if !is_path(value) {
                        worst(&mut v, Class::Malformed, "path-unparseable");
                    }
                    if kind == Kind::Response {
                        worst(&mut v, Class::Unspecified, "request-pseudo-in-response");
                    }
                }
                b":status" => {
                    if !is_status(value) {
                        worst(&mut v, Class::Malformed, "status-unparseable");
                    }
                    status = Some(value);
                    if kind == Kind::Request {
                        worst(&mut v, Class::Unspecified, "status-in-request");
                    }
                }
                b":protocol" => {
                    if !is_token(value) {
                        worst(&mut v, Class::Malformed, "protocol-unparseable");
                    } else if !matches!(&value[..], b"webtransport" | b"connect-udp" | b"connect-ip" | b"websocket") {
                        worst(&mut v, Class::Unspecified, "protocol-unknown-token");
                    }
                    if kind == Kind::Response {
                        worst(&mut v, Class::Unspecified, "request-pseudo-in-response");
                    }
                }
                _ => worst(&mut v, Class::Malformed, "undefined-pseudo-header"),
            }
        } else {
            seen_regular = true;
            if name.iter().any(|b| b.is_ascii_uppercase()) {
                worst(&mut v, Class::Malformed, "uppercase-name");
            } else if !is_lowercase_token(name) {
                worst(&mut v, Class::Malformed, "name-not-a-token");
            }
            check_value(&mut v, value);
            if &name[..] == b"host" {
                if host.is_some() {
                    worst(&mut v, Class::Unspecified, "host-repeated");
                }
                host = Some(value);
            }
        }
    }
    match kind {
        Kind::Request => {
            if method.is_none() {
                worst(&mut v, Class::Malformed, "method-missing");
            }
            match (authority, host) {
                (None, None) => worst(&mut v, Class::Malformed, "authority-missing"),
                (Some(a), Some(h)) if a != h => worst(&mut v, Class::Malformed, "authority-host-differ"),
                (None, Some(h)) if h.is_empty() => worst(&mut v, Class::Malformed, "authority-empty"),
                (None, Some(h)) if !is_authority(h) => worst(&mut v, Class::Unspecified, "host-unparseable"),
                _ => {}
            }
        }
        Kind::Response => {
            if status.is_none() {
                worst(&mut v, Class::Malformed, "status-missing");
            }
        }
        Kind::Trailers => {}
    }
    v
}

/// RFC 9114 4.2.2: "The size of a field list is calculated based on the uncompressed size of
/// fields, including the length of the name and value in bytes plus an overhead of 32 bytes for
/// each field."
pub fn section_size(fields: &[Field]) -> u64 {
    fields.iter().map(|(n, v)| n.len() as u64 + v.len() as u64 + 32).sum()
}

#[cfg(test)]
mod tests {
    use super::*;
    fn f(n: &str, v: &str) -> Field {
        (n.as_bytes().to_vec(), v.as_bytes().to_vec())
    }
    #[test]
    fn classes() {
        let ok = vec![f(":method", "GET"), f(":scheme", "https"), f(":authority", "a.example"), f(":path", "/"), f("x", "y")];
        assert_eq!(judge(&ok, Kind::Request).class, Class::WellFormed);
        let mut m = ok.clone();
        m.push(f("Upper", "v"));
        assert_eq!(judge(&m, Kind::Request).why, "uppercase-name");
        let mut m = ok.clone();
        m.push(f("host", "other"));
        assert_eq!(judge(&m, Kind::Request).why, "authority-host-differ");
        assert_eq!(judge(&ok[1..], Kind::Request).why, "method-missing");
        assert_eq!(judge(&[f(":method", "GET"), f(":path", "/")], Kind::Request).why, "authority-missing");
        assert_eq!(judge(&[f(":status", "200")], Kind::Response).class, Class::WellFormed);
        assert_eq!(judge(&[f("x", "y")], Kind::Response).why, "status-missing");
        assert_eq!(judge(&[f("x", "a\rb")], Kind::Trailers).class, Class::Malformed);
        assert_eq!(judge(&[f(":x", "1"), f(":status", "200")], Kind::Response).why, "undefined-pseudo-header");
        assert_eq!(section_size(&ok), (7 + 3 + 32) + (7 + 5 + 32) + (10 + 9 + 32) + (5 + 1 + 32) + (1 + 1 + 32));
    }
}
