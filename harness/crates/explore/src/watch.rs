//! Stuck-poll watchdog. A subject that loops forever INSIDE one poll never reaches a horizon (horizons count
//! polls) and would hang the check. Executors call `tick()` before every poll; a watchdog thread reports a thread
//! whose last tick is older than the limit as a violation ("a single poll does not return") and ends the process
//! with exit 1. Threads that never tick (codec enumerations) are not watched; a thread that exits clears its slot.

use std::cell::RefCell;
use std::sync::atomic::{AtomicU64, AtomicUsize, Ordering};
use std::sync::{Arc, Mutex, OnceLock};
use std::time::{Duration, Instant};

struct Slot {
    /// milliseconds since START of the last tick; 0 = not executing
    last: AtomicU64,
    case: AtomicUsize,
}

static SLOTS: Mutex<Vec<Arc<Slot>>> = Mutex::new(Vec::new());
static START: OnceLock<Instant> = OnceLock::new();
/// `now_ms()` as of the watchdog's last round (every 2 s): a clock cheap enough for codec enumerations that make
/// billions of calls. 0 until the watchdog runs.
static COARSE: AtomicU64 = AtomicU64::new(0);

struct Guard(Arc<Slot>);
impl Drop for Guard {
    fn drop(&mut self) {
        self.0.last.store(0, Ordering::Relaxed);
    }
}

thread_local! {
    static MINE: RefCell<Option<Guard>> = const { RefCell::new(None) };
}

fn now_ms() -> u64 {
    START.get_or_init(Instant::now).elapsed().as_millis() as u64 + 1
}

fn with_slot(f: impl FnOnce(&Slot)) {
    MINE.with(|m| {
        let mut m = m.borrow_mut();
        if m.is_none() {
            let s = Arc::new(Slot { last: AtomicU64::new(0), case: AtomicUsize::new(usize::MAX) });
            SLOTS.lock().unwrap().push(s.clone());
            *m = Some(Guard(s));
        }
        f(&m.as_ref().unwrap().0);
    });
}

/// Called by the executors right before the code under test is polled.
pub fn tick() {
    with_slot(|s| s.last.store(now_ms(), Ordering::Relaxed));
}

/// Cheap variant for call-level guards: marks the calling thread as inside the subject since (about) now and returns
/// the previous mark, which `leave` puts back.
pub fn enter_coarse() -> u64 {
    let mut now = COARSE.load(Ordering::Relaxed);
    if now == 0 {
        // before the watchdog's first round: the precise clock (a subject may hang in its very first call)
        now = now_ms();
    }
    let mut prev = 0;
    with_slot(|s| prev = s.last.swap(now, Ordering::Relaxed));
    prev
}

pub fn leave(prev: u64) {
    MINE.with(|m| {
        if let Some(g) = m.borrow().as_ref() {
            g.0.last.store(prev, Ordering::Relaxed);
        }
    });
}

/// The calling thread is not inside an execution (between cases, aggregating).
pub fn idle() {
    MINE.with(|m| {
        if let Some(g) = m.borrow().as_ref() {
            g.0.last.store(0, Ordering::Relaxed);
        }
    });
}

/// Index of the case (in the check's deterministic case list) the calling worker is on.
pub fn set_case(i: usize) {
    with_slot(|s| s.case.store(i, Ordering::Relaxed));
}

/// Starts the watchdog thread. `on_stuck(case_index, seconds)` must report and end the process.
pub fn start(limit: Duration, on_stuck: impl Fn(Option<usize>, u64) + Send + 'static) {
    let _ = START.get_or_init(Instant::now);
    std::thread::Builder::new()
        .name("stuck-watchdog".into())
        .spawn(move || loop {
            std::thread::sleep(Duration::from_secs(2));
            let now = now_ms();
            COARSE.store(now, Ordering::Relaxed);
            let slots = SLOTS.lock().unwrap().clone();
            for s in slots {
                let last = s.last.load(Ordering::Relaxed);
                if last != 0 && now.saturating_sub(last) > limit.as_millis() as u64 {
                    let c = s.case.load(Ordering::Relaxed);
                    on_stuck(if c == usize::MAX { None } else { Some(c) }, (now - last) / 1000);
                }
            }
        })
        .expect("spawn watchdog");
}
