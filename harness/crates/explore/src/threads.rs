//! The `threads` engine: actors are real OS threads that pass a baton. Exactly one thread runs
//! at a time; a running thread reaches a scheduling decision at every *pre-emption point* (a hook
//! call inside the code under test), when it parks waiting for a wake-up and when it finishes.
//! Which ready thread runs next is an `explore::choose` (made by the thread holding the baton,
//! against the exploration context shared by all actors), so the DFS enumerates all sequentially
//! consistent interleavings of the hooked operations, with pre-emption bounding: continuing the
//! running thread is the default (free), switching away from it while it is still runnable costs
//! one deviation, a forced switch (the running thread parked or finished) is free.
//!
//! "No ready thread while some thread is parked" is a deadlock / lost wake-up and ends the run.
//! Threads are taken from a per-explorer pool (spawning dominates otherwise).

use crate::chooser::{self, choose, choose_free, Ctx};
use crate::panics::guard;
use std::cell::RefCell;
use std::sync::mpsc::{channel, Sender};
use std::sync::{Arc, Condvar, Mutex};

#[derive(Clone, Copy, PartialEq, Eq, Debug)]
enum Turn {
    /// the thread that called `run` (start and termination only)
    Main,
    Thread(usize),
}

#[derive(Clone, PartialEq, Eq, Debug)]
enum Status {
    Ready,
    Parked,
    Done,
}

struct Th {
    status: Status,
    wake_token: bool,
    panic: Option<String>,
}

struct State {
    turn: Turn,
    th: Vec<Th>,
    abort: bool,
    steps: usize,
    max_steps: usize,
    step_cap: bool,
    deadlock: bool,
    trace: Vec<(usize, &'static str)>,
}

pub struct Baton {
    m: Mutex<State>,
    cv: Condvar,
}

#[derive(Clone)]
pub struct Handle {
    baton: Arc<Baton>,
    pub id: usize,
}

struct Aborted;

thread_local! {
    static CURRENT: RefCell<Option<Handle>> = const { RefCell::new(None) };
    static POOL: RefCell<Vec<Sender<Job>>> = const { RefCell::new(Vec::new()) };
}

type Job = Box<dyn FnOnce() + Send + 'static>;

/// To be called from the code under test (through its hook): a pre-emption point of the
/// calling thread, a no-op on threads that are not baton actors.
pub fn point(name: &'static str) {
    let h = CURRENT.with(|c| c.borrow().clone());
    if let Some(h) = h {
        h.point(name);
    }
}

impl Handle {
    fn lock(&self) -> std::sync::MutexGuard<'_, State> {
        self.baton.m.lock().unwrap_or_else(|e| e.into_inner())
    }

    fn wait_turn(&self, mut g: std::sync::MutexGuard<'_, State>) {
        while g.turn != Turn::Thread(self.id) {
            g = self.baton.cv.wait(g).unwrap_or_else(|e| e.into_inner());
        }
        if g.abort {
            drop(g);
            std::panic::resume_unwind(Box::new(Aborted));
        }
    }

    /// The thread holding the baton decides who runs next. `self_ready`: the caller can continue.
    /// Returns with the lock held; the caller must `wait_turn` unless it was picked itself.
    fn schedule(&self, g: &mut std::sync::MutexGuard<'_, State>, self_ready: bool) -> bool {
        g.steps += 1;
        if g.steps > g.max_steps {
            g.step_cap = true;
            g.turn = Turn::Main;
            self.baton.cv.notify_all();
            return false;
        }
        let n = g.th.len();
        let others: Vec<usize> = (0..n).filter(|i| *i != self.id && g.th[*i].status == Status::Ready).collect();
        let pick = if self_ready {
            let mut order = vec![self.id];
            order.extend(others);
            order[choose(order.len(), "thread")]
        } else if others.is_empty() {
            // nobody can run: finished, or deadlock (someone is parked)
            g.deadlock = g.th.iter().any(|t| t.status == Status::Parked);
            g.turn = Turn::Main;
            self.baton.cv.notify_all();
            return false;
        } else {
            others[choose_free(others.len(), "thread-forced")]
        };
        if pick == self.id {
            return true;
        }
        g.turn = Turn::Thread(pick);
        self.baton.cv.notify_all();
        false
    }

    /// A pre-emption point.
    pub fn point(&self, name: &'static str) {
        let mut g = self.lock();
        g.trace.push((self.id, name));
        if self.schedule(&mut g, true) {
            return;
        }
        self.wait_turn(g);
    }

    /// Block until `unpark(self.id)` (token semantics: an earlier unpark makes this a plain
    /// pre-emption point).
    pub fn park(&self) {
        let mut g = self.lock();
        g.trace.push((self.id, "park"));
        let ready = if g.th[self.id].wake_token {
            g.th[self.id].wake_token = false;
            true
        } else {
            g.th[self.id].status = Status::Parked;
            false
        };
        if self.schedule(&mut g, ready) {
            return;
        }
        self.wait_turn(g);
    }

    /// Make `target` runnable (or leave it a token). Does not yield.
    pub fn unpark(&self, target: usize) {
        let mut g = self.lock();
        match g.th[target].status {
            Status::Parked => g.th[target].status = Status::Ready,
            Status::Ready => g.th[target].wake_token = true,
            Status::Done => {}
        }
    }

    fn finish(&self, panic: Option<String>) {
        let mut g = self.lock();
        g.th[self.id].status = Status::Done;
        if !g.abort {
            g.th[self.id].panic = panic;
            g.trace.push((self.id, "done"));
            let _ = self.schedule(&mut g, false);
        } else {
            g.turn = Turn::Main;
            self.baton.cv.notify_all();
        }
    }
}

#[derive(Debug, Clone, Default, PartialEq, Eq)]
pub struct RunResult {
    /// ids of threads parked forever (no ready thread left)
    pub deadlocked: Vec<usize>,
    /// (thread, "message @ location")
    pub panics: Vec<(usize, String)>,
    /// the step cap was hit
    pub step_cap: bool,
    pub steps: usize,
    /// (thread, point) in execution order
    pub trace: Vec<(usize, &'static str)>,
}

pub type Actor = Box<dyn FnOnce(Handle) + Send + 'static>;

fn pool_submit(slot: usize, job: Job) {
    POOL.with(|p| {
        let mut p = p.borrow_mut();
        while p.len() <= slot {
            let (tx, rx) = channel::<Job>();
            std::thread::Builder::new()
                .stack_size(4 << 20)
                .spawn(move || {
                    while let Ok(job) = rx.recv() {
                        job();
                    }
                })
                .expect("spawn pool thread");
            p.push(tx);
        }
        p[slot].send(job).expect("pool thread alive");
    });
}

/// Runs the actors to completion under the baton scheduler. Called from the exploring thread;
/// its exploration context is shared with the actors so that they make the scheduling choices.
pub fn run(actors: Vec<Actor>, max_steps: usize) -> RunResult {
    let n = actors.len();
    let ctx: Option<Ctx> = chooser::current();
    let baton = Arc::new(Baton {
        m: Mutex::new(State {
            turn: Turn::Main,
            th: (0..n).map(|_| Th { status: Status::Ready, wake_token: false, panic: None }).collect(),
            abort: false,
            steps: 0,
            max_steps,
            step_cap: false,
            deadlock: false,
            trace: Vec::new(),
        }),
        cv: Condvar::new(),
    });
    for (id, actor) in actors.into_iter().enumerate() {
        let h = Handle { baton: baton.clone(), id };
        let ctx = ctx.clone();
        pool_submit(
            id,
            Box::new(move || {
                if let Some(c) = &ctx {
                    c.install();
                }
                CURRENT.with(|c| *c.borrow_mut() = Some(h.clone()));
                let h2 = h.clone();
                let r = guard(move || {
                    let g = h2.lock();
                    h2.wait_turn(g);
                    actor(h2.clone());
                });
                CURRENT.with(|c| *c.borrow_mut() = None);
                Ctx::uninstall();
                h.finish(r.err());
            }),
        );
    }
    // start: the first thread to run is a free choice
    {
        let mut g = baton.m.lock().unwrap_or_else(|e| e.into_inner());
        let first = choose_free(n, "thread-first");
        g.turn = Turn::Thread(first);
        baton.cv.notify_all();
        while g.turn != Turn::Main {
            g = baton.cv.wait(g).unwrap_or_else(|e| e.into_inner());
        }
        // release whatever is still blocked
        g.abort = true;
        for i in 0..n {
            if g.th[i].status != Status::Done {
                g.turn = Turn::Thread(i);
                baton.cv.notify_all();
                while g.th[i].status != Status::Done {
                    g = baton.cv.wait(g).unwrap_or_else(|e| e.into_inner());
                }
            }
        }
    }
    let g = baton.m.lock().unwrap_or_else(|e| e.into_inner());
    let mut res = RunResult { step_cap: g.step_cap, steps: g.steps, trace: g.trace.clone(), ..Default::default() };
    if g.deadlock {
        // parked at the moment nobody could run (statuses were overwritten by the abort: recompute from the trace)
        let mut last: Vec<&'static str> = vec![""; n];
        for (t, p) in &g.trace {
            last[*t] = p;
        }
        res.deadlocked = (0..n).filter(|i| last[*i] == "park").collect();
    }
    for (i, t) in g.th.iter().enumerate() {
        if let Some(p) = &t.panic {
            res.panics.push((i, p.clone()));
        }
    }
    res
}
