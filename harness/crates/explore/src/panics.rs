//! Panic capture: panics inside `guard(..)` are observations, not crashes.

use std::cell::RefCell;
use std::panic::{catch_unwind, AssertUnwindSafe};

thread_local! {
    static LAST_PANIC: RefCell<Option<String>> = const { RefCell::new(None) };
    static GUARDED: RefCell<u32> = const { RefCell::new(0) };
}

/// Panics inside `guard(..)` are observations (captured silently, with location); panics
/// anywhere else are bugs of the harness and are printed as usual.
pub fn install_panic_hook() {
    let default = std::panic::take_hook();
    std::panic::set_hook(Box::new(move |info| {
        let guarded = GUARDED.with(|g| *g.borrow() > 0);
        let msg = info
            .payload()
            .downcast_ref::<String>()
            .cloned()
            .or_else(|| info.payload().downcast_ref::<&str>().map(|s| s.to_string()))
            .unwrap_or_else(|| "<non-string panic>".to_string());
        let loc = info
            .location()
            .map(|l| format!("{}:{}", l.file(), l.line()))
            .unwrap_or_default();
        if guarded {
            LAST_PANIC.with(|p| *p.borrow_mut() = Some(format!("{msg} @ {loc}")));
        } else {
            default(info);
        }
    }));
}

/// Run `f`, turning a panic into `Err("message @ file:line")`.
pub fn guard<R>(f: impl FnOnce() -> R) -> Result<R, String> {
    GUARDED.with(|g| *g.borrow_mut() += 1);
    // a subject call that never returns (a loop that waits for a Buf to drain, ...) is seen by the stuck watchdog
    let mark = crate::watch::enter_coarse();
    let r = catch_unwind(AssertUnwindSafe(f));
    crate::watch::leave(mark);
    GUARDED.with(|g| *g.borrow_mut() -= 1);
    match r {
        Ok(v) => Ok(v),
        Err(_) => Err(LAST_PANIC
            .with(|p| p.borrow_mut().take())
            .unwrap_or_else(|| "panic".to_string())),
    }
}

/// "h3/src/frame.rs:67" from ".../h3/src/frame.rs:67" — keeps signatures stable across checkouts.
pub fn short_loc(panic_msg: &str) -> String {
    let loc = panic_msg.rsplit(" @ ").next().unwrap_or("");
    let loc = loc.strip_prefix("/repo/").unwrap_or(loc);
    // drop the line number: the signature must survive unrelated edits above the site
    let file = loc.rsplit_once(':').map(|(f, _)| f).unwrap_or(loc);
    file.to_string()
}
