//! Shard independent cases over worker threads; every worker owns its accumulator.

use std::sync::atomic::{AtomicUsize, Ordering};

pub fn threads() -> usize {
    std::env::var("VERIF_THREADS")
        .ok()
        .and_then(|s| s.parse().ok())
        .unwrap_or_else(|| {
            std::thread::available_parallelism()
                .map(|n| n.get())
                .unwrap_or(4)
        })
        .max(1)
}

/// Runs `f(case_index, &case, &mut acc)` for every case; returns the accumulators.
pub fn run<C: Sync, A: Send>(
    cases: &[C],
    mk: impl Fn() -> A + Sync,
    f: impl Fn(usize, &C, &mut A) + Sync,
) -> Vec<A> {
    let n = threads().min(cases.len().max(1));
    let next = AtomicUsize::new(0);
    let mut out = Vec::new();
    std::thread::scope(|s| {
        let mut hs = Vec::new();
        for _ in 0..n {
            hs.push(
                std::thread::Builder::new()
                    .stack_size(64 << 20)
                    .spawn_scoped(s, || {
                        let mut acc = mk();
                        loop {
                            let i = next.fetch_add(1, Ordering::Relaxed);
                            if i >= cases.len() {
                                break;
                            }
                            crate::watch::set_case(i);
                            f(i, &cases[i], &mut acc);
                            crate::watch::idle();
                        }
                        acc
                    })
                    .unwrap(),
            );
        }
        for h in hs {
            match h.join() {
                Ok(a) => out.push(a),
                Err(e) => {
                    let msg = e
                        .downcast_ref::<String>()
                        .cloned()
                        .or_else(|| e.downcast_ref::<&str>().map(|s| s.to_string()))
                        .unwrap_or_default();
                    crate::machinery_failure(&format!("worker thread panicked: {msg}"));
                }
            }
        }
    });
    out
}
