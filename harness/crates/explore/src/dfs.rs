//! Stateless depth-first enumeration of choice vectors by re-execution, with a deviation
//! bound (cost of a vector = sum of the costs of its non-default picks).
//!
//! `bound = usize::MAX` is plain exhaustive DFS.

use crate::chooser::{Choice, Ctx};
use std::time::Instant;

#[derive(Clone, Debug, Default)]
pub struct DfsStats {
    pub executions: u64,
    /// choice points met over all executions (= transitions taken)
    pub choice_points: u64,
    /// distinct nodes of the choice tree (a node = a choice prefix = a history-identified state)
    pub tree_nodes: u64,
    pub max_depth: usize,
    pub max_cost_seen: usize,
    /// a cap was hit: the space below the bound was NOT completed
    pub capped: bool,
}

impl DfsStats {
    pub fn merge(&mut self, o: &DfsStats) {
        self.executions += o.executions;
        self.choice_points += o.choice_points;
        self.tree_nodes += o.tree_nodes;
        self.max_depth = self.max_depth.max(o.max_depth);
        self.max_cost_seen = self.max_cost_seen.max(o.max_cost_seen);
        self.capped |= o.capped;
    }
}

#[derive(Clone, Debug)]
pub struct Caps {
    pub deadline: Option<Instant>,
    pub max_executions: u64,
    /// choice points beyond this depth are not branched on (the run is then reported as capped):
    /// protects the explorer against executions that do not terminate (livelocks)
    pub max_branch_depth: usize,
}

impl Default for Caps {
    fn default() -> Self {
        Caps {
            deadline: None,
            max_executions: u64::MAX,
            max_branch_depth: 3000,
        }
    }
}

pub struct Execution<'a> {
    pub choices: Vec<u32>,
    pub trace: &'a [Choice],
    pub cost: usize,
}

fn cost_of(trace: &[Choice]) -> usize {
    trace
        .iter()
        .map(|c| if c.pick != 0 { c.cost as usize } else { 0 })
        .sum()
}

/// Run `exec` under every choice vector of cost <= bound. `exec` must be deterministic given
/// the choices. `on_exec` receives each finished execution.
pub fn explore<R>(
    bound: usize,
    caps: &Caps,
    mut exec: impl FnMut() -> R,
    mut on_exec: impl FnMut(&Execution<'_>, R),
) -> DfsStats {
    let mut stats = DfsStats::default();
    let mut stack: Vec<Vec<u32>> = vec![Vec::new()];
    // memory held by pending prefixes (in u32s): executions that never quiesce (a livelocked subject) have
    // thousands of choice points each and would otherwise fill the memory with alternatives
    let mut stack_elems: usize = 0;
    const MAX_STACK_ELEMS: usize = 24_000_000;
    while let Some(prefix) = stack.pop() {
        stack_elems = stack_elems.saturating_sub(prefix.len());
        if stats.executions >= caps.max_executions
            || caps.deadline.map(|d| Instant::now() >= d).unwrap_or(false)
        {
            stats.capped = true;
            break;
        }
        let plen = prefix.len();
        let ctx = Ctx::new(prefix);
        ctx.install();
        let r = exec();
        Ctx::uninstall();
        let (trace, diverged) = ctx.take_trace();
        if let Some(d) = diverged {
            crate::machinery_failure(&format!("nondeterministic execution: {d}"));
        }
        if trace.len() < plen {
            crate::machinery_failure(&format!(
                "nondeterministic execution: prefix of {plen} choices but only {} choice points met",
                trace.len()
            ));
        }
        let cost = cost_of(&trace);
        stats.executions += 1;
        stats.choice_points += trace.len() as u64;
        stats.tree_nodes += (trace.len() - plen) as u64 + if plen == 0 { 1 } else { 0 };
        stats.max_depth = stats.max_depth.max(trace.len());
        stats.max_cost_seen = stats.max_cost_seen.max(cost);
        let choices: Vec<u32> = trace.iter().map(|c| c.pick).collect();
        // children: deviate at every point after the prefix
        let limit = trace.len().min(caps.max_branch_depth);
        if trace.len() > limit {
            stats.capped = true;
        }
        for i in (plen..limit).rev() {
            let c = &trace[i];
            if c.n <= 1 {
                continue;
            }
            if cost.saturating_add(c.cost as usize) > bound {
                continue;
            }
            for alt in (1..c.n).rev() {
                if stack_elems + i + 1 > MAX_STACK_ELEMS {
                    stats.capped = true;
                    break;
                }
                stack_elems += i + 1;
                let mut child = Vec::with_capacity(i + 1);
                child.extend_from_slice(&choices[..i]);
                child.push(alt);
                stack.push(child);
            }
        }
        on_exec(
            &Execution {
                choices,
                trace: &trace,
                cost,
            },
            r,
        );
    }
    stats
}

/// Re-run one recorded choice vector (replay). Returns the result and whether the replay met
/// exactly the recorded choice points.
pub fn replay<R>(choices: &[u32], mut exec: impl FnMut() -> R) -> (R, Vec<Choice>, Option<String>) {
    let ctx = Ctx::new(choices.to_vec());
    ctx.install();
    let r = exec();
    Ctx::uninstall();
    let (trace, mut diverged) = ctx.take_trace();
    if diverged.is_none() && trace.len() < choices.len() {
        diverged = Some(format!(
            "recorded {} choices but only {} choice points met",
            choices.len(),
            trace.len()
        ));
    }
    (r, trace, diverged)
}
