//! Exploration engines shared by all checks (no dependency on h3).
pub mod chooser;
pub mod dfs;
pub mod panics;
pub mod par;
pub mod report;
pub mod threads;
pub mod watch;

pub use chooser::{choose, choose_free};

/// A failure of the machinery itself (never a verdict about h3): exit code 2.
pub fn machinery_failure(msg: &str) -> ! {
    eprintln!("MACHINERY-FAILURE: {msg}");
    std::process::exit(2);
}

/// FNV-1a, used for state fingerprints (stable across runs, unlike RandomState).
#[derive(Clone, Copy)]
pub struct Fnv(pub u64);
impl Default for Fnv {
    fn default() -> Self {
        Fnv(0xcbf29ce484222325)
    }
}
impl Fnv {
    pub fn new() -> Self {
        Self::default()
    }
    #[inline]
    pub fn bytes(&mut self, b: &[u8]) {
        for &x in b {
            self.0 ^= x as u64;
            self.0 = self.0.wrapping_mul(0x100000001b3);
        }
    }
    #[inline]
    pub fn u64(&mut self, v: u64) {
        self.bytes(&v.to_le_bytes());
    }
    #[inline]
    pub fn str(&mut self, s: &str) {
        self.bytes(s.as_bytes());
        self.bytes(&[0xff]);
    }
    pub fn finish(&self) -> u64 {
        self.0
    }
}

pub fn fnv_str(s: &str) -> u64 {
    let mut f = Fnv::new();
    f.str(s);
    f.finish()
}

pub fn hex(b: &[u8]) -> String {
    let mut s = String::with_capacity(b.len() * 2);
    for x in b {
        s.push_str(&format!("{x:02x}"));
    }
    s
}

pub fn unhex(s: &str) -> Vec<u8> {
    let s: Vec<u8> = s.bytes().filter(|c| !c.is_ascii_whitespace()).collect();
    s.chunks(2)
        .map(|p| u8::from_str_radix(std::str::from_utf8(p).unwrap(), 16).unwrap())
        .collect()
}
