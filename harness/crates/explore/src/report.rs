//! Accumulation of coverage + violations, known-findings handling, evidence and replay files.

use crate::dfs::DfsStats;
use serde_json::{json, Map, Value};
use std::collections::{BTreeMap, HashSet};
use std::path::{Path, PathBuf};
use std::time::Instant;

#[derive(Clone, Copy, PartialEq, Eq, Debug)]
pub enum Tier {
    Quick,
    Thorough,
}
impl Tier {
    pub fn name(self) -> &'static str {
        match self {
            Tier::Quick => "quick",
            Tier::Thorough => "thorough",
        }
    }
    pub fn pick<T>(self, q: T, t: T) -> T {
        match self {
            Tier::Quick => q,
            Tier::Thorough => t,
        }
    }
}

#[derive(Clone, Debug)]
pub struct Violation {
    pub sig: String,
    pub what: String,
    pub replay: Value,
    /// (deviations, size): the smallest is kept per signature
    pub rank: (usize, usize),
    pub count: u64,
}

/// Worker-local accumulator; merged at the end.
#[derive(Default)]
pub struct Acc {
    pub evaluations: u64,
    pub transitions: u64,
    pub states: HashSet<u64>,
    pub nontrivial: HashSet<u64>,
    /// non-trivial cases that are distinct BY CONSTRUCTION (dense enumerations of a block of inputs, each
    /// produced exactly once) and therefore counted without storing a fingerprint per case
    pub nontrivial_counted: u64,
    pub outcomes: HashSet<u64>,
    pub violations: BTreeMap<String, Violation>,
    pub samples: Vec<Value>,
    pub dfs: DfsStats,
    pub counters: BTreeMap<String, u64>,
    pub capped_cases: u64,
}

pub const MAX_SAMPLES: usize = 6;

/// Violations of one exploration, kept per signature (only the smallest counterexample of each
/// signature is retained, so a tree in which every execution fails does not eat the memory).
#[derive(Default)]
pub struct ViolSet {
    pub map: BTreeMap<String, (String, (usize, usize), u64, Vec<u32>)>,
}

impl ViolSet {
    pub fn new() -> ViolSet {
        ViolSet::default()
    }
    pub fn add(&mut self, sig: String, msg: String, rank: (usize, usize), choices: &[u32]) {
        match self.map.get_mut(&sig) {
            Some(e) => {
                e.2 += 1;
                if rank < e.1 {
                    e.0 = msg;
                    e.1 = rank;
                    e.3 = choices.to_vec();
                }
            }
            None => {
                self.map.insert(sig, (msg, rank, 1, choices.to_vec()));
            }
        }
    }
    /// Move everything into `acc`; `replay` builds the replay JSON from the choice vector.
    pub fn drain_into(self, acc: &mut Acc, replay: impl Fn(&[u32]) -> Value) {
        for (sig, (msg, rank, count, choices)) in self.map {
            acc.violation(sig.clone(), msg, rank, || replay(&choices));
            if let Some(v) = acc.violations.get_mut(&sig) {
                v.count += count - 1;
            }
        }
    }
}

impl Acc {
    pub fn new() -> Acc {
        Acc::default()
    }
    pub fn count(&mut self, key: &str, n: u64) {
        *self.counters.entry(key.to_string()).or_insert(0) += n;
    }
    pub fn sample(&mut self, v: impl FnOnce() -> Value) {
        if self.samples.len() < MAX_SAMPLES {
            self.samples.push(v());
        }
    }
    pub fn violation(
        &mut self,
        sig: impl Into<String>,
        what: impl Into<String>,
        rank: (usize, usize),
        replay: impl FnOnce() -> Value,
    ) {
        let sig = sig.into();
        match self.violations.get_mut(&sig) {
            Some(v) => {
                v.count += 1;
                if rank < v.rank {
                    v.rank = rank;
                    v.what = what.into();
                    v.replay = replay();
                }
            }
            None => {
                self.violations.insert(
                    sig.clone(),
                    Violation {
                        sig,
                        what: what.into(),
                        replay: replay(),
                        rank,
                        count: 1,
                    },
                );
            }
        }
    }
    pub fn merge(&mut self, o: Acc) {
        self.evaluations += o.evaluations;
        self.transitions += o.transitions;
        self.states.extend(o.states);
        self.nontrivial.extend(o.nontrivial);
        self.nontrivial_counted += o.nontrivial_counted;
        self.outcomes.extend(o.outcomes);
        for (k, v) in o.violations {
            match self.violations.get_mut(&k) {
                Some(m) => {
                    m.count += v.count;
                    if v.rank < m.rank {
                        let c = m.count;
                        *m = v;
                        m.count = c;
                    }
                }
                None => {
                    self.violations.insert(k, v);
                }
            }
        }
        for s in o.samples {
            if self.samples.len() < MAX_SAMPLES {
                self.samples.push(s);
            }
        }
        self.dfs.merge(&o.dfs);
        for (k, v) in o.counters {
            *self.counters.entry(k).or_insert(0) += v;
        }
        self.capped_cases += o.capped_cases;
    }
}

pub fn verif_root() -> PathBuf {
    std::env::var("VERIF_ROOT")
        .map(PathBuf::from)
        .unwrap_or_else(|_| PathBuf::from("/verif"))
}

/// Where replays and evidence are written: VERIF_OUT when set (detection demonstrations on a
/// patched tree must not overwrite the committed evidence), else the root itself.
pub fn out_root() -> PathBuf {
    std::env::var("VERIF_OUT").map(PathBuf::from).unwrap_or_else(|_| verif_root())
}

#[derive(Debug, Clone)]
pub struct Known {
    pub property: String,
    pub signature: String,
    pub what: String,
}

pub fn load_known(path: &Path) -> Vec<Known> {
    let Ok(text) = std::fs::read_to_string(path) else {
        return Vec::new();
    };
    let mut out = Vec::new();
    for line in text.lines() {
        let line = line.trim();
        let Some(rest) = line.strip_prefix("known:") else {
            continue; // comments and `fixed:` lines suppress nothing
        };
        let mut property = String::new();
        let mut signature = String::new();
        let mut what = Vec::new();
        for tok in rest.split_whitespace() {
            if let Some(p) = tok.strip_prefix("property=") {
                if property.is_empty() {
                    property = p.to_string();
                    continue;
                }
            }
            if let Some(s) = tok.strip_prefix("signature=") {
                if signature.is_empty() {
                    signature = s.to_string();
                    continue;
                }
            }
            what.push(tok);
        }
        if !property.is_empty() && !signature.is_empty() {
            out.push(Known {
                property,
                signature,
                what: what.join(" "),
            });
        }
    }
    out
}

fn sig_matches(pattern: &str, sig: &str) -> bool {
    match pattern.strip_suffix('*') {
        Some(p) => sig.starts_with(p),
        None => pattern == sig,
    }
}

fn file_name_for(sig: &str) -> String {
    let mut s: String = sig
        .chars()
        .map(|c| {
            if c.is_ascii_alphanumeric() || matches!(c, '.' | '_' | '=' | '-' | '+') {
                c
            } else {
                '_'
            }
        })
        .collect();
    if s.len() > 110 {
        let h = crate::fnv_str(sig);
        s.truncate(100);
        s.push_str(&format!("-{h:08x}"));
    }
    s
}

pub struct Report {
    pub property: String,
    pub tier: Tier,
    pub seed: u64,
    pub level: &'static str,
    pub rule: String,
    pub assumptions: Vec<String>,
    pub exhaustive: bool,
    pub bound_note: String,
    pub extra: Map<String, Value>,
    /// fail with exit 2 if fewer distinct outcomes were observed (vacuity alarm)
    pub min_outcomes: usize,
    start: Instant,
}

impl Report {
    pub fn new(property: &str, tier: Tier, seed: u64, level: &'static str) -> Report {
        Report {
            property: property.to_string(),
            tier,
            seed,
            level,
            rule: String::new(),
            assumptions: Vec::new(),
            exhaustive: false,
            bound_note: String::new(),
            extra: Map::new(),
            min_outcomes: 2,
            start: Instant::now(),
        }
    }

    pub fn elapsed(&self) -> f64 {
        self.start.elapsed().as_secs_f64()
    }

    /// Writes replays + evidence, prints verdict lines; returns the process exit code.
    pub fn finish(self, acc: Acc) -> i32 {
        let root = verif_root();
        let known = load_known(&root.join("known_findings.txt"));
        let out = out_root();
        let replay_dir = out.join("replays").join(&self.property);
        let mut new_violations = 0usize;
        let mut known_hit = Vec::new();
        let mut lines = Vec::new();
        for (sig, v) in &acc.violations {
            let _ = std::fs::create_dir_all(&replay_dir);
            let path = replay_dir.join(format!("{}.json", file_name_for(sig)));
            let body = json!({
                "property": self.property,
                "signature": sig,
                "what": v.what,
                "deviations": v.rank.0,
                "occurrences_this_run": v.count,
                "replay": v.replay,
            });
            if let Err(e) = std::fs::write(&path, serde_json::to_string_pretty(&body).unwrap() + "\n")
            {
                crate::machinery_failure(&format!("cannot write {}: {e}", path.display()));
            }
            let k = known
                .iter()
                .find(|k| k.property == self.property && sig_matches(&k.signature, sig));
            match k {
                Some(k) => {
                    known_hit.push(k.signature.clone());
                    lines.push(format!(
                        "KNOWN-FINDING: property={} signature={} {} [{} occurrences; replay={}]",
                        self.property,
                        sig,
                        if k.what.is_empty() { &v.what } else { &k.what },
                        v.count,
                        path.display()
                    ));
                }
                None => {
                    new_violations += 1;
                    lines.push(format!(
                        "VIOLATION property={} replay={}   # signature={} :: {} [{} occurrences]",
                        self.property,
                        path.display(),
                        sig,
                        v.what,
                        v.count
                    ));
                }
            }
        }
        for l in &lines {
            println!("{l}");
        }

        let wall = self.start.elapsed().as_secs_f64();
        let mut cov = Map::new();
        cov.insert("evaluations".into(), json!(acc.evaluations.max(acc.dfs.executions)));
        cov.insert("distinct_nontrivial".into(), json!(acc.nontrivial.len() as u64 + acc.nontrivial_counted));
        cov.insert("rule".into(), json!(self.rule));
        cov.insert("samples".into(), Value::Array(acc.samples.clone()));
        cov.insert("exhaustive".into(), json!(self.exhaustive && !acc.dfs.capped && acc.capped_cases == 0));
        cov.insert("distinct_outcomes".into(), json!(acc.outcomes.len()));
        if self.level == "model_checking" {
            cov.insert("states".into(), json!(acc.states.len().max(1)));
            cov.insert("transitions".into(), json!(acc.transitions.max(acc.dfs.choice_points).max(1)));
            cov.insert(
                "traces_validated_against_impl".into(),
                json!(acc.evaluations.max(acc.dfs.executions)),
            );
            cov.insert("executions".into(), json!(acc.dfs.executions));
            cov.insert("choice_points".into(), json!(acc.dfs.choice_points));
            cov.insert("choice_tree_nodes".into(), json!(acc.dfs.tree_nodes));
            cov.insert("max_choice_depth".into(), json!(acc.dfs.max_depth));
            cov.insert("max_deviations_in_an_execution".into(), json!(acc.dfs.max_cost_seen));
        }
        cov.insert("bound".into(), json!(self.bound_note));
        cov.insert("capped_cases".into(), json!(acc.capped_cases + acc.dfs.capped as u64));
        if !acc.counters.is_empty() {
            cov.insert(
                "counters".into(),
                Value::Object(acc.counters.iter().map(|(k, v)| (k.clone(), json!(v))).collect()),
            );
        }
        for (k, v) in &self.extra {
            cov.insert(k.clone(), v.clone());
        }
        cov.insert(
            "violation_signatures".into(),
            json!(acc.violations.keys().cloned().collect::<Vec<_>>()),
        );
        cov.insert("known_findings_hit".into(), json!(known_hit));
        let ev = json!({
            "property_id": self.property,
            "tier": self.tier.name(),
            "seed": self.seed,
            "level": self.level,
            "coverage": Value::Object(cov),
            "assumptions": self.assumptions,
            "wall_s": (wall * 1000.0).round() / 1000.0,
            "violations": new_violations,
        });
        let evdir = out.join("evidence");
        let _ = std::fs::create_dir_all(&evdir);
        let evpath = evdir.join(format!("{}.json", self.property));
        if let Err(e) = std::fs::write(&evpath, serde_json::to_string_pretty(&ev).unwrap() + "\n") {
            crate::machinery_failure(&format!("cannot write {}: {e}", evpath.display()));
        }

        println!(
            "{} {}: evaluations={} executions={} choice_points={} states={} nontrivial={} outcomes={} signatures={} new_violations={} capped={} wall={:.1}s",
            self.property,
            self.tier.name(),
            acc.evaluations.max(acc.dfs.executions),
            acc.dfs.executions,
            acc.dfs.choice_points,
            acc.states.len(),
            acc.nontrivial.len() as u64 + acc.nontrivial_counted,
            acc.outcomes.len(),
            acc.violations.len(),
            new_violations,
            acc.capped_cases + acc.dfs.capped as u64,
            wall
        );
        if new_violations > 0 {
            return 1;
        }
        if acc.outcomes.len() < self.min_outcomes {
            eprintln!(
                "MACHINERY-FAILURE: vacuous exploration: only {} distinct outcome(s) observed",
                acc.outcomes.len()
            );
            return 2;
        }
        if (acc.nontrivial.len() as u64 + acc.nontrivial_counted) < 2 {
            eprintln!("MACHINERY-FAILURE: vacuous exploration: fewer than 2 non-trivial cases");
            return 2;
        }
        0
    }
}
