//! The single source of nondeterminism: `choose(n, label)`.
//!
//! An execution is identified by its choice vector. Choice 0 is always the *default*
//! environment answer; any other pick is a *deviation* and costs 1 against the bound
//! (unless made through `choose_free`, which is used only for dimensions that are meant to
//! be enumerated completely).
//!
//! The context lives in a thread local; the `threads` engine (C05) installs a shared
//! context in every baton thread through `install_shared`.

use std::cell::RefCell;
use std::sync::{Arc, Mutex};

#[derive(Clone, Debug)]
pub struct Choice {
    pub n: u32,
    pub pick: u32,
    pub cost: u8,
    pub label: &'static str,
}

#[derive(Default, Debug)]
pub struct CtxInner {
    pub prefix: Vec<u32>,
    pub trace: Vec<Choice>,
    /// set when the prefix asked for a pick that does not exist (replay divergence)
    pub diverged: Option<String>,
}

#[derive(Clone, Default)]
pub struct Ctx(pub Arc<Mutex<CtxInner>>);

thread_local! {
    static CTX: RefCell<Option<Ctx>> = const { RefCell::new(None) };
}

impl Ctx {
    pub fn new(prefix: Vec<u32>) -> Ctx {
        Ctx(Arc::new(Mutex::new(CtxInner {
            prefix,
            trace: Vec::new(),
            diverged: None,
        })))
    }
    pub fn install(&self) {
        CTX.with(|c| *c.borrow_mut() = Some(self.clone()));
    }
    pub fn uninstall() {
        CTX.with(|c| *c.borrow_mut() = None);
    }
    pub fn take_trace(&self) -> (Vec<Choice>, Option<String>) {
        let mut g = self.0.lock().unwrap();
        (std::mem::take(&mut g.trace), g.diverged.take())
    }
}

fn choose_cost(n: usize, label: &'static str, cost: u8) -> usize {
    if n <= 1 {
        return 0;
    }
    CTX.with(|c| {
        let b = c.borrow();
        let Some(ctx) = b.as_ref() else { return 0 };
        let mut g = ctx.0.lock().unwrap();
        let idx = g.trace.len();
        let pick = if idx < g.prefix.len() {
            let p = g.prefix[idx];
            if p as usize >= n {
                if g.diverged.is_none() {
                    g.diverged = Some(format!(
                        "choice #{idx} ({label}): recorded pick {p} but only {n} alternatives"
                    ));
                }
                0
            } else {
                p
            }
        } else {
            0
        };
        g.trace.push(Choice {
            n: n as u32,
            pick,
            cost,
            label,
        });
        pick as usize
    })
}

/// A choice whose non-default alternatives each cost one deviation.
pub fn choose(n: usize, label: &'static str) -> usize {
    choose_cost(n, label, 1)
}

/// A choice that is enumerated completely (alternatives are free).
pub fn choose_free(n: usize, label: &'static str) -> usize {
    choose_cost(n, label, 0)
}

/// The exploration context installed on this thread (to share it with helper threads).
pub fn current() -> Option<Ctx> {
    CTX.with(|c| c.borrow().clone())
}

/// true iff an exploration context is installed on this thread
pub fn active() -> bool {
    CTX.with(|c| c.borrow().is_some())
}
